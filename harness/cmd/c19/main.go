// C19: credential lookup from a Docker-style config file is a deterministic function of the
// file contents and the helper outputs, with the documented precedence.
//
// Generated documents are written to a scratch directory and loaded through
// ociauth.LoadWithEnv (DOCKER_CONFIG in the explicit environment) many times each - every
// load decodes afresh, so Go re-randomises the iteration over the auths map while the
// decoder extends it - and every interesting host is looked up in several orders. Every
// observation is compared with the harness's own model (model.go) and with every other
// observation of the same document.
package main

import (
	"errors"
	"fmt"
	"math/rand/v2"
	"os"
	"path/filepath"
	"runtime"
	"runtime/debug"
	"sort"
	"strings"
	"sync"

	"cuelabs.dev/go/oci/ociregistry/ociauth"

	"verifharness/internal/evid"
)

type finding struct {
	Key      string `json:"key"`
	What     string `json:"what"`
	Lookup   string `json:"lookup"`
	Observed string `json:"observed"`
	Expected string `json:"expected"`
	Stack    string `json:"stack,omitempty"`
}

func showOutcome(o outcome) string {
	if o.Err {
		return "error"
	}
	return fmt.Sprintf("entry{RefreshToken:%q AccessToken:%q Username:%q Password:%q}", o.E.RefreshToken, o.E.AccessToken, o.E.Username, o.E.Password)
}

func showAlts(x expectation) string {
	var s []string
	for _, a := range x.Alts {
		s = append(s, showOutcome(a))
	}
	return strings.Join(s, " or ") + "  [rule " + x.Rule + "]"
}

// injectedRunner is the HelperRunner given to LoadWithEnv in the main phase.
func injectedRunner(helper, serverURL string) (ociauth.ConfigEntry, error) {
	e, kind := helperOutput(helper, serverURL)
	switch kind {
	case "missing":
		return ociauth.ConfigEntry{}, fmt.Errorf("%w: docker-credential-%s", ociauth.ErrHelperNotFound, helper)
	case "err":
		return ociauth.ConfigEntry{}, errors.New("error getting credentials: boom")
	}
	return e, nil
}

// evaluator loads documents from one private directory.
type evaluator struct {
	dir    string
	env    []string
	runner ociauth.HelperRunner // nil: the library's own exec runner (exec phase)
}

func newEvaluator(dir string, runner ociauth.HelperRunner) *evaluator {
	os.MkdirAll(dir, 0o777)
	return &evaluator{dir: dir, env: []string{"HOME=/nonexistent-c19", "DOCKER_CONFIG=" + dir}, runner: runner}
}

type evalResult struct {
	findings          map[string]finding
	names             []string
	exps              []expectation
	lookups           int
	concurrentLookups int
	concurrentFirst   int
	loads             int
	loadErrs          int
	loadErrTexts      map[string]struct{}
	vectors           int  // distinct outcome vectors over the loads
	lookupTextVar     bool // some lookup failed with different messages on different loads
	allErr            []bool
}

func (r *evalResult) add(f finding) {
	if _, ok := r.findings[f.Key]; !ok {
		r.findings[f.Key] = f
	}
}

// otherSource reports whether the observed entry is what some other auths entry or some
// helper of the document would give (then a mismatch is a precedence matter, not a decoding one).
func (d *doc) otherSource(o outcome, name string, not *entry) bool {
	for _, e := range d.Auths {
		if e == not {
			continue
		}
		for _, a := range entryAlts(e) {
			if !a.Err && a == o {
				return true
			}
		}
	}
	for _, h := range helperNames {
		if ho, _ := helperOutcome(h, name); !ho.Err && ho == o && ho.E != (ociauth.ConfigEntry{}) {
			return true
		}
	}
	return false
}

func mismatchKey(d *doc, name string, x expectation, o outcome) string {
	if e := x.Decider; e != nil && e.HasAuth && !o.Err && !d.otherSource(o, name, e) {
		for _, a := range x.Alts {
			if !a.Err && a.E.RefreshToken == o.E.RefreshToken && a.E.AccessToken == o.E.AccessToken {
				return "decode-auth/" + e.AuthClass
			}
		}
	}
	return "precedence/" + x.Rule
}

// eval writes d and performs `loads` fresh loads with `passes` lookup passes each.
func (ev *evaluator) eval(d *doc, loads, passes int, rng *rand.Rand) *evalResult {
	r := &evalResult{findings: map[string]finding{}, loadErrTexts: map[string]struct{}{}}
	text := d.text()
	if err := os.WriteFile(filepath.Join(ev.dir, "config.json"), text, 0o666); err != nil {
		fmt.Fprintf(os.Stderr, "HARNESS-ERROR: %v\n", err)
		os.Exit(2)
	}
	names := d.lookupNames()
	exps := make([]expectation, len(names))
	for i, n := range names {
		exps[i] = d.expect(n)
	}
	r.names, r.exps = names, exps
	r.allErr = make([]bool, len(names))
	for i := range r.allErr {
		r.allErr[i] = true
	}
	ref := make([]outcome, len(names))
	refSet := make([]bool, len(names))
	errText := make([]string, len(names))
	var vectors [][]outcome
	loadErrSeen, loadOKSeen := false, false
	order := make([]int, 0, len(names)*2)
	cur := make([]outcome, len(names))
	curSet := make([]bool, len(names))

	for l := 0; l < loads; l++ {
		stage := "LoadWithEnv"
		func() {
			defer func() {
				if e := recover(); e != nil {
					st := debug.Stack()
					r.add(finding{Key: "total/" + stage + "/panic/" + evid.PanicSite(st), What: fmt.Sprintf("panic in %s: %v", stage, e), Stack: string(st)})
				}
			}()
			cf, err := ociauth.LoadWithEnv(ev.runner, ev.env)
			r.loads++
			if err != nil {
				r.loadErrs++
				r.loadErrTexts[err.Error()] = struct{}{}
				loadErrSeen = true
				if !d.Invalid {
					r.add(finding{Key: ev.loadErrorKey(d), What: "LoadWithEnv rejected a document whose auth fields are all valid base64(user:password): " + err.Error(), Observed: "load error"})
				}
				return
			}
			loadOKSeen = true
			stage = "EntryForRegistry"
			for i := range curSet {
				curSet[i] = false
			}
			// the documented contract lets EntryForRegistry be called concurrently: with the real helper
			// programs, overlapping lookups on a ConfigFile must answer as sequential ones do - also when
			// they are the very first lookups on a freshly loaded file (second load: compared with the first
			// load's sequential answers)
			concurrentPhase := func(base []outcome, baseSet []bool, when string) {
				// the documented contract lets EntryForRegistry be called concurrently: with the real
				// helper programs, overlapping lookups on this ConfigFile must answer as the sequential ones did
				var cwg sync.WaitGroup
				var cmu sync.Mutex
				diffs := map[int]outcome{}
				textDiffs := map[int]string{}
				for g := 0; g < 6; g++ {
					cwg.Add(1)
					go func(g int) {
						defer cwg.Done()
						defer func() {
							if e := recover(); e != nil {
								st := debug.Stack()
								cmu.Lock()
								r.add(finding{Key: "total/EntryForRegistry/panic/" + evid.PanicSite(st), What: fmt.Sprintf("panic in a concurrent EntryForRegistry: %v", e), Stack: string(st)})
								cmu.Unlock()
							}
						}()
						for k := range names {
							i := (k + g*3) % len(names)
							e, err := cf.EntryForRegistry(names[i])
							o := outcome{Err: err != nil}
							if err == nil {
								o.E = e
							} else if t := err.Error(); errText[i] != "" && errText[i] != t {
								cmu.Lock()
								textDiffs[i] = t
								cmu.Unlock()
							}
							if baseSet[i] && base[i] != o {
								cmu.Lock()
								diffs[i] = o
								cmu.Unlock()
							}
						}
					}(g)
				}
				cwg.Wait()
				r.concurrentLookups += 6 * len(names)
				for i, o := range diffs {
					r.add(finding{Key: "determinism/concurrent-lookups", What: fmt.Sprintf("EntryForRegistry(%q) answered %s while other lookups on the same ConfigFile were in flight; sequentially (%s) it answered %s", names[i], showOutcome(o), when, showOutcome(base[i])),
						Lookup: names[i], Observed: showOutcome(o), Expected: showOutcome(base[i])})
				}
				if len(textDiffs) > 0 {
					// informational: the text of a failure is not a function of the file on the pinned tree either
					// (which of two applicable complaints is raised depends on the decode order of a Go map)
					r.lookupTextVar = true
				}
			}
			if ev.runner == nil && l == 1 && len(names) > 1 {
				concurrentPhase(ref, refSet, "on an earlier load of the same file")
				r.concurrentFirst++
			}
			for p := 0; p < passes; p++ {
				order = order[:0]
				for i := range names {
					order = append(order, i)
				}
				switch {
				case l == 0 && p == 0: // sorted
				case l == 1 && p == 0:
					for i, j := 0, len(order)-1; i < j; i, j = i+1, j-1 {
						order[i], order[j] = order[j], order[i]
					}
				default:
					rng.Shuffle(len(order), func(i, j int) { order[i], order[j] = order[j], order[i] })
				}
				for k := len(names) / 4; k >= 0; k-- { // some hosts twice in a row of lookups
					order = append(order, rng.IntN(len(names)))
				}
				for _, i := range order {
					e, err := cf.EntryForRegistry(names[i])
					r.lookups++
					o := outcome{Err: err != nil}
					if err == nil {
						o.E = e
						r.allErr[i] = false
					} else if t := err.Error(); errText[i] == "" {
						errText[i] = t
					} else if errText[i] != t {
						r.lookupTextVar = true
					}
					rule := "invalid-auth-document"
					if !d.Invalid {
						rule = exps[i].Rule
						if !exps[i].accepts(o) {
							r.add(finding{Key: mismatchKey(d, names[i], exps[i], o),
								What:   fmt.Sprintf("EntryForRegistry(%q): observed %s; expected %s", names[i], showOutcome(o), showAlts(exps[i])),
								Lookup: names[i], Observed: showOutcome(o), Expected: showAlts(exps[i])})
						}
					}
					if curSet[i] && cur[i] != o {
						r.add(finding{Key: "determinism/repeat-lookup/" + rule,
							What:   fmt.Sprintf("EntryForRegistry(%q) gave two different results on the same loaded ConfigFile: %s, then %s", names[i], showOutcome(cur[i]), showOutcome(o)),
							Lookup: names[i], Observed: showOutcome(o), Expected: showOutcome(cur[i])})
					}
					cur[i], curSet[i] = o, true
					if !refSet[i] {
						ref[i], refSet[i] = o, true
					} else if ref[i] != o {
						r.add(finding{Key: "determinism/across-loads/" + rule,
							What:   fmt.Sprintf("EntryForRegistry(%q) differs between fresh loads of the same file: %s on an earlier load, %s on load %d", names[i], showOutcome(ref[i]), showOutcome(o), l),
							Lookup: names[i], Observed: showOutcome(o), Expected: showOutcome(ref[i])})
					}
				}
			}
			if ev.runner == nil && l == 0 && len(names) > 1 {
				concurrentPhase(cur, curSet, "just before, on this ConfigFile")
			}
			vec := append([]outcome(nil), cur...)
			for _, v := range vectors {
				same := true
				for i := range v {
					if v[i] != vec[i] {
						same = false
						break
					}
				}
				if same {
					return
				}
			}
			vectors = append(vectors, vec)
		}()
	}
	r.vectors = len(vectors)
	if loadErrSeen {
		r.vectors++
	}
	if loadErrSeen && loadOKSeen {
		r.add(finding{Key: "determinism/load-error", What: fmt.Sprintf("LoadWithEnv failed on %d of %d fresh loads of the same file", r.loadErrs, r.loads), Observed: fmt.Sprintf("%d errors / %d loads", r.loadErrs, r.loads)})
	}
	if r.loads == r.loadErrs {
		for i := range r.allErr {
			r.allErr[i] = false
		}
	}
	return r
}

// loadErrorKey attributes a load failure of a valid document: each auth entry is
// tried alone; the class of the first one rejected alone names the finding.
func (ev *evaluator) loadErrorKey(d *doc) string {
	pdir := filepath.Join(ev.dir, "probe")
	os.MkdirAll(pdir, 0o777)
	keys := append([]string(nil), d.Keys...)
	sort.Strings(keys)
	var classes []string
	for _, k := range keys {
		e := d.Auths[k]
		if !e.HasAuth {
			continue
		}
		one := &doc{Keys: []string{"probe.example.com"}, Auths: map[string]*entry{"probe.example.com": e}}
		os.WriteFile(filepath.Join(pdir, "config.json"), one.text(), 0o666)
		failed := false
		func() {
			defer func() {
				if recover() != nil {
					failed = true
				}
			}()
			_, err := ociauth.LoadWithEnv(injectedRunner, []string{"HOME=/nonexistent-c19", "DOCKER_CONFIG=" + pdir})
			failed = err != nil
		}()
		if failed {
			classes = append(classes, e.AuthClass)
		}
	}
	if len(classes) == 0 {
		return "load/unexpected-error"
	}
	sort.Strings(classes)
	return "decode-auth/load-rejected/" + classes[0]
}

// shrink removes parts of d while the finding with the given key is still reported.
func shrink(d *doc, key string, has func(*doc) bool) *doc {
	cur := d.clone()
	cur.Noise = false
	if !has(cur) {
		cur = d.clone()
	}
	for changed := true; changed; {
		changed = false
		for i := 0; i < len(cur.Keys); i++ {
			c := cur.clone()
			delete(c.Auths, c.Keys[i])
			c.Keys = append(c.Keys[:i], c.Keys[i+1:]...)
			c.recomputeInvalid()
			if has(c) {
				cur, changed = c, true
				i--
			}
		}
		for i := 0; i < len(cur.CredHelpers); i++ {
			c := cur.clone()
			c.CredHelpers = append(c.CredHelpers[:i], c.CredHelpers[i+1:]...)
			if has(c) {
				cur, changed = c, true
				i--
			}
		}
		if cur.CredsStore != "" || cur.EmptyStore {
			c := cur.clone()
			c.CredsStore, c.EmptyStore = "", false
			if has(c) {
				cur, changed = c, true
			}
		}
		for _, k := range cur.Keys {
			if cur.Auths[k].Email != "" {
				c := cur.clone()
				c.Auths[k].Email = ""
				if has(c) {
					cur, changed = c, true
				}
			}
		}
	}
	return cur
}

const helperScriptHead = "#!/bin/sh\nIFS= read -r h\n"

func credsLine(name string) string {
	return fmt.Sprintf(`printf '{"Username":"hu:%s:%%s","Secret":"hp:%s:%%s"}\n' "$h" "$h"`, name, name) + "\n"
}
func tokenLine(name string) string {
	return fmt.Sprintf(`printf '{"Username":"<token>","Secret":"ht:%s:%%s"}\n' "$h"`, name) + "\n"
}

const nfLine = "echo 'credentials not found in native keychain'; exit 1\n"
const errLine = "echo 'boom: some other failure' >&2; exit 1\n"

// nfLineStderr: the same outcome said on the other stream. The library reads a helper's two streams as
// one output (as docker's own client does), so where the standard message is written does not matter.
const nfLineStderr = "echo 'credentials not found in native keychain' >&2; exit 1\n"

// installHelpers writes real docker-credential-* programs (shell scripts) whose outputs are
// exactly the helper table of gen.go, and puts them on this process's PATH.
func installHelpers(bin string) error {
	if err := os.MkdirAll(bin, 0o777); err != nil {
		return err
	}
	mix := "case \"$h\" in\n"
	for _, p := range mixPatterns {
		body := map[string]string{"creds": credsLine("c19mix"), "token": tokenLine("c19mix"), "nf": nfLineStderr, "err": errLine}[p[1]]
		mix += "*" + p[0] + "*) " + strings.TrimSuffix(body, "\n") + ";;\n"
	}
	mix += "*) " + strings.TrimSuffix(credsLine("c19mix"), "\n") + ";;\nesac\n"
	scripts := map[string]string{
		"c19creds": credsLine("c19creds"),
		"c19tok":   tokenLine("c19tok"),
		"c19nf":    nfLine,
		"c19err":   errLine,
		"c19mix":   mix,
	}
	for name, body := range scripts {
		if err := os.WriteFile(filepath.Join(bin, "docker-credential-"+name), []byte(helperScriptHead+body), 0o755); err != nil {
			return err
		}
	}
	// c19dot is only reachable through a relative PATH element: os/exec finds it and
	// refuses to run it.
	rel := "c19relbin"
	if err := os.MkdirAll(filepath.Join(filepath.Dir(bin), rel), 0o777); err != nil {
		return err
	}
	if err := os.WriteFile(filepath.Join(filepath.Dir(bin), rel, "docker-credential-c19dot"), []byte(helperScriptHead+credsLine("c19dot")), 0o755); err != nil {
		return err
	}
	if err := os.Chdir(filepath.Dir(bin)); err != nil {
		return err
	}
	return os.Setenv("PATH", bin+string(os.PathListSeparator)+rel+string(os.PathListSeparator)+os.Getenv("PATH"))
}

type best struct {
	phase string
	idx   int
	f     finding
}

func main() {
	run := evid.Start("C19", "exploration")
	run.SetRule("each case is one generated config.json (auths with bare-host keys, scheme-less host/path keys, http/https URL keys with paths, colliding keys; username/password, base64 auth in 10 valid and 3 invalid classes, identity/registry tokens; credsStore; credHelpers) written to disk, loaded N times afresh via LoadWithEnv+DOCKER_CONFIG and queried for every host/key it mentions plus an unmentioned host, in sorted, reversed and shuffled orders with repeats; distinct = (deciding rule, helper behaviour or entry kind) shapes")
	run.Assume("error presence is compared, never error text; entry fields are compared exactly")
	run.Assume("helper outputs are a fixed function of (helper name, host); the injected HelperRunner follows the HelperRunner doc comment: zero entry+nil for not-found, an ErrHelperNotFound-wrapping error for a missing binary")
	run.Assume("where the property is silent every documented reading is accepted: identitytoken together with a username may be an error or the entry; an entry with both auth and username/password may give either pair; documents with an undecodable auth field are only checked for determinism")
	run.Assume("passwords never start or end with NUL (the decoder trims those by design); auth users never contain ':'")
	run.Assume("a per-host helper whose binary is missing is an error (doc comment in EntryForRegistry: only a fallback default is forgiven)")

	scratch := os.Getenv("VERIF_SCRATCH")
	if scratch == "" {
		tmp, err := os.MkdirTemp("", "c19-")
		if err != nil {
			fmt.Fprintf(os.Stderr, "HARNESS-ERROR: %v\n", err)
			os.Exit(2)
		}
		defer os.RemoveAll(tmp)
		scratch = tmp
	}
	scratch = filepath.Join(scratch, "c19-work")
	execOK := installHelpers(filepath.Join(scratch, "bin")) == nil
	if _, err := os.Stat("/bin/sh"); err != nil {
		execOK = false
	}

	nDocs := run.N(6000, 50000)
	nLoads := run.N(16, 64)
	nExecDocs := run.N(150, 600)
	workers := runtime.NumCPU()
	if workers > 16 {
		workers = 16
	}
	if workers < 1 {
		workers = 1
	}

	var mu sync.Mutex
	bests := map[string]best{}
	counters := map[string]int{}
	distinct := map[string]struct{}{}
	maxVectors, docsMultiVector := 0, 0
	var samples []sample

	genFor := func(phase string, idx int) (*doc, *rand.Rand) {
		stream := uint64(1)
		if phase == "exec" {
			stream = 2
		}
		rng := run.Rand(stream, uint64(idx))
		return genDoc(rng, phase == "exec"), rng
	}

	runPhase := func(phase string, n, loads, passes int, runner ociauth.HelperRunner) {
		var wg sync.WaitGroup
		next := 0
		for w := 0; w < workers; w++ {
			wg.Add(1)
			go func(w int) {
				defer wg.Done()
				ev := newEvaluator(filepath.Join(scratch, fmt.Sprintf("%s-w%d", phase, w)), runner)
				lc := map[string]int{}
				ld := map[string]struct{}{}
				lbest := map[string]best{}
				lmax, lmulti := 0, 0
				for {
					mu.Lock()
					idx := next
					next++
					mu.Unlock()
					if idx >= n {
						break
					}
					d, rng := genFor(phase, idx)
					run.Journal("%s doc %d", phase, idx)
					r := ev.eval(d, loads, passes, rng)
					account(phase, d, r, lc, ld)
					if idx < 300 {
						if sm := sampleDoc(phase, idx, d, r); sm != nil {
							mu.Lock()
							samples = append(samples, *sm)
							mu.Unlock()
						}
					}
					if r.vectors > lmax {
						lmax = r.vectors
					}
					if r.vectors > 1 {
						lmulti++
					}
					for k, f := range r.findings {
						if b, ok := lbest[k]; !ok || idx < b.idx {
							lbest[k] = best{phase, idx, f}
						}
					}
				}
				mu.Lock()
				for k, v := range lc {
					counters[k] += v
				}
				for k := range ld {
					distinct[k] = struct{}{}
				}
				for k, b := range lbest {
					if o, ok := bests[k]; !ok || (o.phase == b.phase && b.idx < o.idx) {
						bests[k] = b
					}
				}
				if lmax > maxVectors {
					maxVectors = lmax
				}
				docsMultiVector += lmulti
				mu.Unlock()
			}(w)
		}
		wg.Wait()
	}

	runPhase("main", nDocs, nLoads, 2, injectedRunner)
	if execOK {
		runPhase("exec", nExecDocs, 2, 1, nil)
	}

	// report: one violation per key, from the lowest document index that showed it, shrunk
	var keys []string
	for k := range bests {
		keys = append(keys, k)
	}
	sort.Strings(keys)
	sev := newEvaluator(filepath.Join(scratch, "shrink-main"), injectedRunner)
	sevx := newEvaluator(filepath.Join(scratch, "shrink-exec"), nil)
	for _, k := range keys {
		b := bests[k]
		d, _ := genFor(b.phase, b.idx)
		ev, loads, passes := sev, nLoads, 2
		if loads < 48 {
			loads = 48
		}
		if b.phase == "exec" {
			ev, loads, passes = sevx, 2, 1
		}
		var last finding
		has := func(c *doc) bool {
			r := ev.eval(c, loads, passes, run.Rand(3, uint64(b.idx)))
			f, ok := r.findings[k]
			if ok {
				last = f
			}
			return ok
		}
		small := d
		f := b.f
		if has(d) {
			small = shrink(d, k, has)
			if has(small) {
				f = last
			}
		}
		run.Violation(k, f.What+" — minimal document: "+strings.Join(strings.Fields(string(small.text())), " "), map[string]any{
			"phase":             b.phase,
			"doc_index":         b.idx,
			"finding":           f,
			"first_seen":        b.f,
			"minimal_document":  string(small.text()),
			"original_document": string(d.text()),
			"helper_behaviour":  "c19creds=credentials c19tok=<token> c19nf=credentials-not-found c19err=other error c19dot=program found only through a relative PATH element (exec phase: os/exec refuses to run it; injected phase: other error) c19gone=missing binary c19mix=by host (h0 creds, h1 token, h2 not found, h3 error, else creds)",
		})
	}

	sort.Slice(samples, func(i, j int) bool {
		if samples[i].phase != samples[j].phase {
			return samples[i].phase > samples[j].phase
		}
		return samples[i].idx < samples[j].idx
	})
	for _, sm := range samples {
		run.Sample(sm.kind, sm.v)
	}
	for k, v := range counters {
		run.Count(k, v)
	}
	for k := range distinct {
		run.Distinct(k)
	}
	run.Eval(counters["documents"] + counters["exec/documents"])
	run.SetExtra("fresh_loads_per_document", nLoads)
	run.SetExtra("lookup_passes_per_load", 2)
	run.SetExtra("max_distinct_outcome_vectors_per_document", maxVectors)
	run.SetExtra("documents_with_more_than_one_outcome_vector", docsMultiVector)
	run.SetExtra("iteration_order_witness", fmt.Sprintf("%d documents with >=2 undecodable auth entries were loaded; %d of them reported >=2 different 'cannot decode auth field for <key>' messages over their %d loads (the message names the first bad key the decoder's map iteration met, so the iteration order did vary between fresh loads); %d valid documents showed a colliding-host lookup failing with different messages on different loads",
		counters["order_witness_candidates"], counters["order_witness_varied"], nLoads, counters["lookup_error_text_varied_docs"]))
	run.SetExtra("workers", workers)

	q := func(quick, thorough int) int { return run.N(quick, thorough) }
	floorC := func(name string, need int) { run.Floor(name, need, counters[name]) }
	floorC("documents", nDocs)
	floorC("docs_with_url_collision", q(150, 5000))
	floorC("lookups_failed_as_expected", q(300, 10000))
	floorC("rule/url-collision", q(150, 5000))
	floorC("rule/explicit-over-derived", q(100, 3000))
	floorC("rule/derived-single", q(100, 3000))
	floorC("rule/literal-url-key", q(100, 3000))
	floorC("exercised/per-host-over-default", q(60, 2000))
	floorC("exercised/per-host-over-table", q(60, 2000))
	floorC("exercised/default-over-table", q(100, 3000))
	floorC("exercised/missing-default-falls-back", q(60, 2000))
	floorC("exercised/per-host-missing-is-error", q(30, 1000))
	for _, kind := range []string{"creds", "token", "nf", "err"} {
		floorC("helper/per-host-helper/"+kind, q(20, 600))
		floorC("helper/default-store/"+kind, q(20, 600))
	}
	for _, c := range []string{"plain", "pw-colon", "pw-interior-nul", "pw-empty", "utf8", "raw-bytes", "long", "user-punct", "pw-space-nl"} {
		floorC("auth-decided/"+c, q(15, 500))
	}
	floorC("docs_large_map", q(150, 5000))
	floorC("invalid_auth_docs", q(10, 300))
	floorC("order_witness_varied", q(3, 100))
	if execOK {
		floorC("exec/documents", nExecDocs)
		for _, kind := range []string{"creds", "token", "nf", "err", "missing"} {
			floorC("exec/helper-kind/"+kind, q(5, 50))
		}
		floorC("exec/exercised/missing-default-falls-back", q(3, 30))
		floorC("exec/exercised/unrunnable-default-is-error", q(3, 30))
	} else {
		run.Inconclusive("no /bin/sh or scratch not writable: the exec-helper phase (real docker-credential-* programs through ExecHelperWithEnv) did not run")
	}
	run.Finish()
}

// account updates the observation counters for one evaluated document.
func account(phase string, d *doc, r *evalResult, c map[string]int, dist map[string]struct{}) {
	p := ""
	if phase == "exec" {
		p = "exec/"
	}
	c[p+"documents"]++
	c[p+"loads"] += r.loads
	c[p+"lookups"] += r.lookups
	c[p+"concurrent_lookups"] += r.concurrentLookups
	c[p+"concurrent_first_lookups_on_fresh_load"] += r.concurrentFirst
	if d.Invalid {
		c[p+"invalid_auth_docs"]++
		c[p+"invalid_auth_loads_rejected"] += r.loadErrs
		c[p+"invalid_auth_loads_accepted"] += r.loads - r.loadErrs
		bad := 0
		for _, e := range d.Auths {
			if e.HasAuth && !e.AuthValid {
				bad++
			}
		}
		if bad >= 2 {
			c["order_witness_candidates"]++
			if len(r.loadErrTexts) >= 2 {
				c["order_witness_varied"]++
			}
		}
		return
	}
	if len(d.Keys) > 8 {
		c[p+"docs_large_map"]++
	}
	if r.lookupTextVar {
		c[p+"lookup_error_text_varied_docs"]++
	}
	collision := false
	for i, x := range r.exps {
		rule := x.Rule
		if x.Table != "" {
			c[p+"rule/"+x.Table]++
			if x.Table == "url-collision" {
				collision = true
			}
		}
		if strings.HasPrefix(rule, "per-host-helper/") || strings.HasPrefix(rule, "default-store/") {
			c[p+"helper/"+rule]++
			c[p+"helper-kind/"+rule[strings.Index(rule, "/")+1:]]++
		}
		if strings.HasPrefix(rule, "missing-default-fallback/") {
			c[p+"helper-kind/missing"]++
		}
		if x.Exercised != nil {
			for _, e := range x.Exercised {
				c[p+"exercised/"+e]++
				if e == "per-host-missing-is-error" {
					c[p+"helper-kind/missing"]++
				}
			}
		}
		shape := rule
		if x.Decider != nil {
			shape += "/" + x.Decider.Kind
			if x.Decider.HasAuth {
				shape += "/" + x.Decider.AuthClass
				c[p+"auth-decided/"+x.Decider.AuthClass]++
			}
		}
		dist[p+shape] = struct{}{}
		if x.onlyError() && r.allErr[i] {
			c[p+"lookups_failed_as_expected"]++
		}
		if len(x.Alts) > 1 {
			c[p+"lookups_with_open_choice"]++
		}
	}
	if collision {
		c[p+"docs_with_url_collision"]++
	}
}

type sample struct {
	phase, kind string
	idx         int
	v           any
}

func sampleDoc(phase string, idx int, d *doc, r *evalResult) *sample {
	kind := ""
	for _, x := range r.exps {
		switch {
		case x.Table == "url-collision":
			kind = "url-collision"
		case len(x.Exercised) > 0 && kind == "":
			kind = x.Exercised[0]
		}
	}
	if d.Invalid {
		kind = "invalid-auth"
	}
	if kind == "" {
		return nil
	}
	exp := map[string]string{}
	for i, n := range r.names {
		if !d.Invalid {
			exp[n] = showAlts(r.exps[i])
		}
	}
	return &sample{phase, phase + "/" + kind, idx, map[string]any{"doc_index": idx, "document": string(d.text()), "expected": exp, "loads": r.loads, "load_errors": r.loadErrs, "distinct_outcome_vectors": r.vectors}}
}
