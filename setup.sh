#!/bin/bash
# setup_cmd: offline warm-up. Nothing the checks rely on is built here (every ./run rebuilds
# its child from /repo's current working tree); this only fills the Go build cache so that
# the first quick run of each check is not dominated by compiling the standard library twice
# (plain and -race).
export GOFLAGS=-mod=mod GOPROXY=off GOSUMDB=off GOTOOLCHAIN=local GOWORK=off
cd "$(dirname "$0")/harness" || exit 1
T="$(mktemp -d)"; trap 'rm -rf "$T"' EXIT
go build -tags verif -o "$T/" ./... || exit 1
go build -tags verif -race -o "$T/" ./... || exit 1
echo setup ok
