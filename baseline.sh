#!/bin/bash
# Runs the repository's own test suite with the verif guard OFF (no build tags),
# the same way /root/.vp/BASELINE.json does. Exit 0 iff every package passes.
export GOPROXY=off GOSUMDB=off GOTOOLCHAIN=local
unset GOFLAGS
rc=0
for m in ./cmd/ocisrv ./internal/ci ./ociregistry ./ociregistry/internal/conformance; do
  (cd /repo/$m && go test -vet=off -count=1 -timeout 25m "$@" ./...) || rc=1
done
exit $rc
